------------------------------- MODULE MC_Big -------------------------------
(* Validation of the Big module against TLC's native integers on a grid.   *)
EXTENDS Big, TLC
CONSTANT Tier
VARIABLES a, b
R == IF Tier = "quick" THEN {-300, -257, -256, -255, -129, -128, -127, -17, -2, -1, 0, 1, 2, 3, 15, 16, 127, 128, 255, 256, 257, 4095, 65535, 65536}
     ELSE (-260..260) \cup {4095, 4096, 65535, 65536, -65536, 46340, -46340}
Init == a \in R /\ b \in R
Next == UNCHANGED <<a, b>>
Spec == Init /\ [][Next]_<<a, b>>
Sgn(x) == IF x < 0 THEN -1 ELSE IF x > 0 THEN 1 ELSE 0
AbsN(x) == IF x < 0 THEN -x ELSE x
TruncDiv(x, y) == Sgn(x) * Sgn(y) * (AbsN(x) \div AbsN(y))
TruncRem(x, y) == Sgn(x) * (AbsN(x) % AbsN(y))
FloorDiv(x, k) == x \div k          \* TLA+ \div is floor division for positive divisors
Agree ==
    LET za == ZOf(a) zb == ZOf(b) IN
    /\ ZToInt(za) = a
    /\ ZToInt(ZAdd(za, zb)) = a + b
    /\ ZToInt(ZSub(za, zb)) = a - b
    /\ (AbsN(a) < 46341 /\ AbsN(b) < 46341) => ZToInt(ZMul(za, zb)) = a * b
    /\ (ZCmp(za, zb) < 0) = (a < b)
    /\ (ZCmp(za, zb) = 0) = (a = b)
    /\ b # 0 => ZToInt(ZDivT(za, zb)) = TruncDiv(a, b) /\ ZToInt(ZRemT(za, zb)) = TruncRem(a, b)
    /\ \A k \in {0, 1, 3, 7, 8, 9, 15, 16} :
          /\ ZToInt(ZModPow2(za, k)) = a % (2 ^ k)
          /\ ZToInt(ZFloorShr(za, k)) = FloorDiv(a, 2 ^ k)
    /\ (a >= 0 /\ b >= 0) => /\ ZToInt(ZAndN(za, zb)) = (a & b)
                             /\ ZToInt(ZOrN(za, zb)) = (a | b)
                             /\ ZToInt(ZXorN(za, zb)) = (a ^^ b)
    /\ ZNeg(ZNeg(za)) = za
    /\ ZOf(ZToInt(ZAdd(za, zb))) = ZAdd(za, zb)            \* normal form is canonical
\* a few identities beyond 32 bits
ASSUME ZMul(ZPow2(40), ZPow2(40)) = ZPow2(80)
ASSUME ZSub(ZPow2(64), Z1) = Z(0, [i \in 1..8 |-> 255])
ASSUME ZDivT(ZSub(ZPow2(64), Z1), ZOf(65535)) = ZAdd(ZAdd(ZAdd(ZPow2(48), ZPow2(32)), ZPow2(16)), Z1)
ASSUME ZRemT(ZNeg(ZPow2(63)), ZOf(1000)) = ZOf(-808)
ASSUME ZFloorShr(ZNeg(ZPow2(63)), 62) = ZOf(-2)
ASSUME ZModPow2(ZNeg(Z1), 64) = ZSub(ZPow2(64), Z1)
=============================================================================
