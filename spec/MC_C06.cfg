SPECIFICATION Spec
CONSTANT Tier = "quick"
CONSTANT MaxHist = 2
INVARIANT Emit
INVARIANT LayoutTheorems
PROPERTY WriteChangesOnlyThatEntry
CHECK_DEADLOCK FALSE
