#!/bin/sh
# Build the harness binaries for every configuration from files on disk (offline).
set -e
cd "$(dirname "$0")"
export CARGO_NET_OFFLINE=true
python3 - <<'PY'
import sys, os
sys.path.insert(0, os.getcwd())
from vlib import core, setup_list
core.build_all(setup_list.CFGS, setup_list.BINS, jobs=6)
core.build_all(setup_list.FEAT_CFGS, setup_list.FEAT_BINS, jobs=3)
core.build_all(setup_list.ASSERT_CFGS, setup_list.ASSERT_BINS, jobs=2)
print("setup ok")
PY
